//go:build verif

// Contracts for govc (contract-based deductive verification); comments only.
package pod_group

// (file added by helper "ctrl2" for the C20 fold in pkg/podgroupcontroller/controllers: the caller needs to know that
//  asking for the group's preemptibility does not disturb the accumulator it has just created)

// preemptibleNow(pg): the answer IsPreemptible gives for the pod group in the current reconcile ("CURRENT
// preemptibility": spec.preemptibility, else the priority class read from the cluster). Naming only.
//@ declare preemptibleNow(pg *v2alpha2.PodGroup) bool

//@ import constants "github.com/NVIDIA/KAI-scheduler/pkg/common/constants"
//@ import pg "github.com/NVIDIA/KAI-scheduler/pkg/common/podgroup"
// C20 "status.resourcesStatus ... computed from the CURRENT priority class / preemptibility": the priority of a pod
// group is resolved in a fixed order: the class it names; if that class does not exist (also: no class named) the
// cluster's global-default class; only if there is none the system default. (IsPreemptible was `trusted` before; a
// round-4 seeded change that skipped the global default for an empty class name was missed for that reason.)
// The two look-ups go through client.Client (Get / List into local objects): trusted, their answers are only NAMED.
//@ declare isNotFoundErr(e error) bool
//@ declare specificErr(name string) error
//@ declare specificVal(name string) int
//@ declare globalErr() error
//@ declare globalVal() int
//@ func k8s.io/apimachinery/pkg/api/errors.IsNotFound
//@   props C20
//@   pure
//@   ensures result == isNotFoundErr(err)
//@ end
//@ func getSpecificPriorityClass
//@   props C20
//@   trusted
//@   note reads one PriorityClass through client.Client.Get into a local object; assumed frame: writes nothing that existed before; the answer is only named (function of the class name for the duration of one reconcile)
//@   ensures result1 == specificErr(priorityClassName) && (result1 == nil ==> result0 == specificVal(priorityClassName))
//@ end
//@ func getGlobalDefaultPriorityClass
//@   props C20
//@   trusted
//@   note lists the PriorityClasses through client.Client.List into a local list and returns the value of the first one marked globalDefault, NotFound if there is none; assumed frame: writes nothing that existed before; the answer is only named
//@   ensures result1 == globalErr() && (result1 == nil ==> result0 == globalVal())
//@ end
//@ func getPodGroupPriority
//@   props C20
//@   requires podGroup != nil
//@   ensures [namedClassWins] specificErr(podGroup.Spec.PriorityClassName) == nil ==> result1 == nil && result0 == specificVal(podGroup.Spec.PriorityClassName)
//@   ensures [globalDefaultNext] specificErr(podGroup.Spec.PriorityClassName) != nil && isNotFoundErr(specificErr(podGroup.Spec.PriorityClassName)) && globalErr() == nil ==> result1 == nil && result0 == globalVal()
//@   ensures [systemDefaultLast] specificErr(podGroup.Spec.PriorityClassName) != nil && isNotFoundErr(specificErr(podGroup.Spec.PriorityClassName)) && globalErr() != nil && isNotFoundErr(globalErr()) ==> result1 == nil && result0 == constants.DefaultPodGroupPriority
//@   ensures [lookupFailureIsAnError] (specificErr(podGroup.Spec.PriorityClassName) != nil && !isNotFoundErr(specificErr(podGroup.Spec.PriorityClassName))) || (specificErr(podGroup.Spec.PriorityClassName) != nil && globalErr() != nil && !isNotFoundErr(globalErr())) ==> result1 != nil
//@ end
// the priority the resolution order above yields (defined when no look-up failed)
//@ define resolvedPriority(g *v2alpha2.PodGroup) int = ite(specificErr(g.Spec.PriorityClassName) == nil, specificVal(g.Spec.PriorityClassName), ite(globalErr() == nil, globalVal(), constants.DefaultPodGroupPriority))
//@ func IsPreemptible
//@   props C20
//@   requires podGroup != nil
//@   ensures [errorMeansFalse] result1 != nil ==> !result0
//@   trust [current] result1 == nil ==> result0 == preemptibleNow(podGroup)
//@   note [current] only NAMES the answer for the callers' folds (an uninterpreted predicate of the pod group); what the answer is, is the verified clause below
//@   ensures [preemptibleFromSpecElseResolvedPriority] result1 == nil ==> (result0 <==> pg.CalculatePreemptibility(podGroup.Spec.Preemptibility, resolvedPriority(podGroup)) == v2alpha2.Preemptible)
//@ end
