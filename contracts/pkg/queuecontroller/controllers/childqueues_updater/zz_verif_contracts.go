//go:build verif

// Contracts for govc (contract-based deductive verification); comments only.
package childqueues_updater

//@ import rupd "github.com/NVIDIA/KAI-scheduler/pkg/queuecontroller/controllers/resource_updater"
//@ import v2alpha2 "github.com/NVIDIA/KAI-scheduler/pkg/apis/scheduling/v2alpha2"

// Property C20 ("a Queue's reported values ... child queues at every level of the hierarchy"; "reconciling again without
// change leaves every object unchanged"): the reported child-queue names are exactly the names of the listed queues
// that name this queue as their parent (the index may be stale: re-checked by name): as a MULTISET - every name occurs
// among the reported names exactly as often as among those queues - and there are as many entries as such queues; a
// failed List leaves the status untouched.
// anyName(): an arbitrary, unconstrained string (nullary uninterpreted constant): a clause proved for anyName() holds
// for EVERY name (stands for `forall s string ::` around the counts; range sums under a binder get no unfolding).
//@ declare anyName() string
//@ define isChild(c v2.Queue, parent string) bool = c.Spec.ParentQueue == parent
// Copy of the ASSUMED client.Client.List contract of the resource_updater package (same text, names qualified): an
// external interface contract is looked up in the unit's OWN contract file first; other packages (pod-grouper plugins)
// carry different List contracts for their own list types.
//@ func sigs.k8s.io/controller-runtime/pkg/client.Client.List
//@   props C20
//@   note ASSUMED (external interface, no body): same contract as in resource_updater's file - decodes into the list object only, Items is new memory, may fail; which objects are selected is not modelled
//@   requires [knownListType] list != nil && (typeis(list, "*v2.QueueList") || typeis(list, "*v2alpha2.PodGroupList"))
//@   modifies fields(rupd.qlOf(list)), fields(rupd.pglOf(list)), rupd.listedQueues(), rupd.listedPodGroups()
//@   ensures typeis(list, "*v2.QueueList") ==> rupd.listedQueues() == rupd.qlOf(list) && rupd.listedPodGroups() == old(rupd.listedPodGroups())
//@   ensures typeis(list, "*v2alpha2.PodGroupList") ==> rupd.listedPodGroups() == rupd.pglOf(list) && rupd.listedQueues() == old(rupd.listedQueues())
//@   ensures result == nil && typeis(list, "*v2.QueueList") ==> fresh(rupd.qlOf(list).Items)
//@   ensures result == nil && typeis(list, "*v2alpha2.PodGroupList") ==> fresh(rupd.pglOf(list).Items)
//@ end

//@ define nMatching(n int, parent string) int = count i in range(0, n) :: isChild(rupd.listedQueues().Items[i], parent)
//@ define nMatchingNamed(n int, parent string, s string) int = count i in range(0, n) :: isChild(rupd.listedQueues().Items[i], parent) && rupd.listedQueues().Items[i].Name == s
//@ define nNamed(names []string, n int, s string) int = count k in range(0, n) :: names[k] == s

//@ func (*ChildQueuesUpdater).UpdateQueue
//@   props C20
//@   requires ru != nil && ru.Client != nil && queue != nil
//@   modifies queue.Status.ChildQueues, rupd.listedQueues()
//@   loop 1
//@     invariant 0 - 1 <= rangeindex && rangeindex < len(childrenQueue.Items)
//@     invariant rupd.listedQueues() == childrenQueue && childrenQueue != nil && fresh(childrenQueue.Items)
//@     invariant len(childrenQueueNames) == nMatching(rangeindex + 1, queue.Name)
//@     invariant nNamed(childrenQueueNames, len(childrenQueueNames), anyName()) == nMatchingNamed(rangeindex + 1, queue.Name, anyName())
//@     decreases len(childrenQueue.Items) - rangeindex
//@   ensures [listErrorKeepsStatus] result != nil ==> queue.Status.ChildQueues == old(queue.Status.ChildQueues)
//@   ensures [asManyAsChildren] result == nil ==> len(queue.Status.ChildQueues) == nMatching(len(rupd.listedQueues().Items), queue.Name)
//@   ensures [sameNamesAsChildren] result == nil ==> nNamed(queue.Status.ChildQueues, len(queue.Status.ChildQueues), anyName()) == nMatchingNamed(len(rupd.listedQueues().Items), queue.Name, anyName())
//@ end
