//go:build verif

// Contracts for govc (contract-based deductive verification); comments only.
package childqueues_updater

//@ import rupd "github.com/NVIDIA/KAI-scheduler/pkg/queuecontroller/controllers/resource_updater"

// Property C20 ("a Queue's reported values ... child queues at every level of the hierarchy"; "reconciling again without
// change leaves every object unchanged"): the reported child-queue names are exactly the names of the listed queues
// that name this queue as their parent (the index may be stale: re-checked by name) - as many entries as there are such
// queues, every entry is one of them, every one of them is an entry; a failed List leaves the status untouched.
//@ define isChild(c v2.Queue, parent string) bool = c.Spec.ParentQueue == parent
//@ define nMatching(n int, parent string) int = count i in range(0, n) :: isChild(rupd.listedQueues().Items[i], parent)

//@ func (*ChildQueuesUpdater).UpdateQueue
//@   props C20
//@   requires ru != nil && ru.Client != nil && queue != nil
//@   modifies queue.Status.ChildQueues, rupd.listedQueues()
//@   loop 1
//@     invariant 0 - 1 <= rangeindex && rangeindex < len(childrenQueue.Items)
//@     invariant rupd.listedQueues() == childrenQueue && childrenQueue != nil && fresh(childrenQueue.Items)
//@     invariant len(childrenQueueNames) == nMatching(rangeindex + 1, queue.Name)
//@     invariant forall k int :: 0 <= k && k < len(childrenQueueNames) ==> (exists i int :: 0 <= i && i <= rangeindex && isChild(childrenQueue.Items[i], queue.Name) && childrenQueueNames[k] == childrenQueue.Items[i].Name)
//@     invariant forall i int :: 0 <= i && i <= rangeindex && isChild(childrenQueue.Items[i], queue.Name) ==> (exists k int :: 0 <= k && k < len(childrenQueueNames) && childrenQueueNames[k] == childrenQueue.Items[i].Name)
//@     decreases len(childrenQueue.Items) - rangeindex
//@   ensures [listErrorKeepsStatus] result != nil ==> queue.Status.ChildQueues == old(queue.Status.ChildQueues)
//@   ensures [asManyAsChildren] result == nil ==> len(queue.Status.ChildQueues) == nMatching(len(rupd.listedQueues().Items), queue.Name)
//@   ensures [onlyChildren] result == nil ==> (forall k int :: 0 <= k && k < len(queue.Status.ChildQueues) ==> (exists i int :: 0 <= i && i < len(rupd.listedQueues().Items) && isChild(rupd.listedQueues().Items[i], queue.Name) && queue.Status.ChildQueues[k] == rupd.listedQueues().Items[i].Name))
//@   ensures [everyChild] result == nil ==> (forall i int :: 0 <= i && i < len(rupd.listedQueues().Items) && isChild(rupd.listedQueues().Items[i], queue.Name) ==> (exists k int :: 0 <= k && k < len(queue.Status.ChildQueues) && queue.Status.ChildQueues[k] == rupd.listedQueues().Items[i].Name))
//@ end
