//go:build verif

// Contracts for govc (contract-based deductive verification); comments only.
package resource_updater

// Property C20: "a Queue's reported values equal the SUMS over its pod groups and child queues at every level of the
// hierarchy."
//
// anyRes(): an arbitrary, unconstrained resource name (nullary uninterpreted constant; no axiom mentions it). A clause
// proved for anyRes() holds for EVERY resource name; it stands for `forall rn v1.ResourceName ::` around the sums
// (a range sum under an enclosing binder gets no unfolding instance: engine limit).
//@ declare anyRes() v1.ResourceName

//@ define qlOf(o ref) *v2.QueueList = unbox(o, "*v2.QueueList")
//@ define pglOf(o ref) *v2alpha2.PodGroupList = unbox(o, "*v2alpha2.PodGroupList")
// the list object the most recent Client.List call decoded into (ghost, written by the assumed contract of List)
//@ ghost listedQueues() *v2.QueueList
//@ ghost listedPodGroups() *v2alpha2.PodGroupList

// ASSUMED contract of the controller-runtime client (never verified against a body): List decodes the selected objects
// into NEW memory (a new Items array whose elements share nothing with objects that existed before) and touches nothing
// else; it may fail. The `requires` restricts the contract to the two list types the queue controller uses, so that a
// caller under contract with another list type fails an obligation instead of silently getting this frame.
//@ func sigs.k8s.io/controller-runtime/pkg/client.Client.List
//@   props C20
//@   note ASSUMED (external interface, no body): decodes into the list object only, the Items array and everything reachable from it is new memory, may fail; which objects are selected is NOT modelled (the sums are stated over whatever was listed). listedQueues()/listedPodGroups() are ghost names for the list object of the latest call.
//@   requires [knownListType] list != nil && (typeis(list, "*v2.QueueList") || typeis(list, "*v2alpha2.PodGroupList"))
//@   modifies fields(qlOf(list)), fields(pglOf(list)), listedQueues(), listedPodGroups()
//@   ensures typeis(list, "*v2.QueueList") ==> listedQueues() == qlOf(list) && listedPodGroups() == old(listedPodGroups())
//@   ensures typeis(list, "*v2alpha2.PodGroupList") ==> listedPodGroups() == pglOf(list) && listedQueues() == old(listedQueues())
//@   ensures result == nil && typeis(list, "*v2.QueueList") ==> fresh(qlOf(list).Items)
//@   ensures result == nil && typeis(list, "*v2alpha2.PodGroupList") ==> fresh(pglOf(list).Items)
//@ end

// what child queue c contributes to its parent `parent` (the index may return stale entries: re-checked by name)
//@ define childAlloc(c v2.Queue, parent string, r v1.ResourceName) real = ite(c.Spec.ParentQueue == parent, c.Status.Allocated[r], 0.0)
//@ define childNonPre(c v2.Queue, parent string, r v1.ResourceName) real = ite(c.Spec.ParentQueue == parent, c.Status.AllocatedNonPreemptible[r], 0.0)
//@ define childReq(c v2.Queue, parent string, r v1.ResourceName) real = ite(c.Spec.ParentQueue == parent, c.Status.Requested[r], 0.0)
// sums over the first n listed child queues / pod groups (defines, so that loop invariants and postconditions use the
// SAME source summand: the congruence axiom between two heap states is generated per source expression)
//@ define childAllocSum(n int, parent string, r v1.ResourceName) real = sum i in range(0, n) :: childAlloc(listedQueues().Items[i], parent, r)
//@ define childNonPreSum(n int, parent string, r v1.ResourceName) real = sum i in range(0, n) :: childNonPre(listedQueues().Items[i], parent, r)
//@ define childReqSum(n int, parent string, r v1.ResourceName) real = sum i in range(0, n) :: childReq(listedQueues().Items[i], parent, r)
//@ define pgAllocSum(n int, r v1.ResourceName) real = sum i in range(0, n) :: listedPodGroups().Items[i].Status.ResourcesStatus.Allocated[r]
//@ define pgNonPreSum(n int, r v1.ResourceName) real = sum i in range(0, n) :: listedPodGroups().Items[i].Status.ResourcesStatus.AllocatedNonPreemptible[r]
//@ define pgReqSum(n int, r v1.ResourceName) real = sum i in range(0, n) :: listedPodGroups().Items[i].Status.ResourcesStatus.Requested[r]
//@ define nChildren() int = len(listedQueues().Items)
//@ define nPodGroups() int = len(listedPodGroups().Items)

// "... equal the sums over its ... child queues": every listed queue that names this queue as its parent adds its
// reported Allocated / AllocatedNonPreemptible / Requested, per resource name; a failed List changes nothing.
//@ func (*ResourceUpdater).sumChildQueueResources
//@   props C20
//@   requires ru != nil && ru.Client != nil && queue != nil
//@   modifies queue.Status.Allocated, queue.Status.AllocatedNonPreemptible, queue.Status.Requested, listedQueues()
//@   loop 1
//@     invariant 0 - 1 <= rangeindex && rangeindex < len(children.Items)
//@     invariant listedQueues() != nil && listedQueues().Items == children.Items && fresh(children.Items)
//@     invariant queue.Status.Allocated[anyRes()] == old(queue.Status.Allocated[anyRes()]) + childAllocSum(rangeindex + 1, queue.Name, anyRes())
//@     invariant queue.Status.AllocatedNonPreemptible[anyRes()] == old(queue.Status.AllocatedNonPreemptible[anyRes()]) + childNonPreSum(rangeindex + 1, queue.Name, anyRes())
//@     invariant queue.Status.Requested[anyRes()] == old(queue.Status.Requested[anyRes()]) + childReqSum(rangeindex + 1, queue.Name, anyRes())
//@     decreases len(children.Items) - rangeindex
//@   ensures [listErrorKeepsStatus] result != nil ==> queue.Status.Allocated == old(queue.Status.Allocated) && queue.Status.AllocatedNonPreemptible == old(queue.Status.AllocatedNonPreemptible) && queue.Status.Requested == old(queue.Status.Requested)
//@   ensures [listIsNew] result == nil ==> listedQueues() != nil && fresh(listedQueues().Items)
//@   ensures [allocatedAddsChildren] result == nil ==> queue.Status.Allocated[anyRes()] == old(queue.Status.Allocated[anyRes()]) + childAllocSum(nChildren(), queue.Name, anyRes())
//@   ensures [nonPreemptibleAddsChildren] result == nil ==> queue.Status.AllocatedNonPreemptible[anyRes()] == old(queue.Status.AllocatedNonPreemptible[anyRes()]) + childNonPreSum(nChildren(), queue.Name, anyRes())
//@   ensures [requestedAddsChildren] result == nil ==> queue.Status.Requested[anyRes()] == old(queue.Status.Requested[anyRes()]) + childReqSum(nChildren(), queue.Name, anyRes())
//@ end

// "... equal the sums over its pod groups ...": every listed pod group adds its reported resources, per resource name;
// a failed List changes nothing.
//@ func (*ResourceUpdater).sumPodGroupsResources
//@   props C20
//@   requires ru != nil && ru.Client != nil && queue != nil
//@   modifies queue.Status.Allocated, queue.Status.AllocatedNonPreemptible, queue.Status.Requested, listedPodGroups()
//@   loop 1
//@     invariant 0 - 1 <= rangeindex && rangeindex < len(queuePodGroups.Items)
//@     invariant listedPodGroups() != nil && listedPodGroups().Items == queuePodGroups.Items && fresh(queuePodGroups.Items)
//@     invariant queue.Status.Allocated[anyRes()] == old(queue.Status.Allocated[anyRes()]) + pgAllocSum(rangeindex + 1, anyRes())
//@     invariant queue.Status.AllocatedNonPreemptible[anyRes()] == old(queue.Status.AllocatedNonPreemptible[anyRes()]) + pgNonPreSum(rangeindex + 1, anyRes())
//@     invariant queue.Status.Requested[anyRes()] == old(queue.Status.Requested[anyRes()]) + pgReqSum(rangeindex + 1, anyRes())
//@     decreases len(queuePodGroups.Items) - rangeindex
//@   ensures [listErrorKeepsStatus] result != nil ==> queue.Status.Allocated == old(queue.Status.Allocated) && queue.Status.AllocatedNonPreemptible == old(queue.Status.AllocatedNonPreemptible) && queue.Status.Requested == old(queue.Status.Requested)
//@   ensures [listIsNew] result == nil ==> listedPodGroups() != nil && fresh(listedPodGroups().Items)
//@   ensures [allocatedAddsPodGroups] result == nil ==> queue.Status.Allocated[anyRes()] == old(queue.Status.Allocated[anyRes()]) + pgAllocSum(nPodGroups(), anyRes())
//@   ensures [nonPreemptibleAddsPodGroups] result == nil ==> queue.Status.AllocatedNonPreemptible[anyRes()] == old(queue.Status.AllocatedNonPreemptible[anyRes()]) + pgNonPreSum(nPodGroups(), anyRes())
//@   ensures [requestedAddsPodGroups] result == nil ==> queue.Status.Requested[anyRes()] == old(queue.Status.Requested[anyRes()]) + pgReqSum(nPodGroups(), anyRes())
//@ end

// Property C20: "a Queue's reported values equal the SUMS over its pod groups and child queues at every level of the
// hierarchy": the status computed for ONE queue is exactly (sum over its listed child queues of their reported status)
// + (sum over its listed pod groups of their reported status), per resource name and for each of the three lists -
// nothing of the previous status survives. Applied to every queue (each is reconciled when a child queue or a pod group
// of it changes), this is the per-level equation of the hierarchy.
//@ func (*ResourceUpdater).UpdateQueue
//@   props C20
//@   requires ru != nil && ru.Client != nil && queue != nil
//@   modifies queue.Status.Allocated, queue.Status.AllocatedNonPreemptible, queue.Status.Requested, listedQueues(), listedPodGroups()
//@   ensures [allocatedIsSum] result == nil ==> queue.Status.Allocated[anyRes()] == childAllocSum(nChildren(), queue.Name, anyRes()) + pgAllocSum(nPodGroups(), anyRes())
//@   ensures [nonPreemptibleIsSum] result == nil ==> queue.Status.AllocatedNonPreemptible[anyRes()] == childNonPreSum(nChildren(), queue.Name, anyRes()) + pgNonPreSum(nPodGroups(), anyRes())
//@   ensures [requestedIsSum] result == nil ==> queue.Status.Requested[anyRes()] == childReqSum(nChildren(), queue.Name, anyRes()) + pgReqSum(nPodGroups(), anyRes())
//@ end
