// Copyright 2025 NVIDIA CORPORATION
// SPDX-License-Identifier: Apache-2.0

package preempt_test

import (
	"testing"

	. "go.uber.org/mock/gomock"

	"github.com/NVIDIA/KAI-scheduler/pkg/scheduler/actions/preempt"
	"github.com/NVIDIA/KAI-scheduler/pkg/scheduler/api/pod_status"
	"github.com/NVIDIA/KAI-scheduler/pkg/scheduler/constants"
	"github.com/NVIDIA/KAI-scheduler/pkg/scheduler/test_utils"
	"github.com/NVIDIA/KAI-scheduler/pkg/scheduler/test_utils/jobs_fake"
	"github.com/NVIDIA/KAI-scheduler/pkg/scheduler/test_utils/nodes_fake"
	"github.com/NVIDIA/KAI-scheduler/pkg/scheduler/test_utils/tasks_fake"
)

// Demonstration of a genuine defect of the UNCHANGED code (found 2026-09-25, fixed by the `fix:` commit recorded in
// /verif/known_findings.json; place this file in pkg/scheduler/actions/preempt/): a train gang (minAvailable 2) runs its
// two minimum pods and owns a third, still Pending, pod; a higher priority job of the same queue needs one GPU. The preempt
// action evicts the gang and later tries the evicted gang itself as a preemptor: JobSolver.Solve takes the (virtually)
// Releasing pods as tasks to allocate, the partial job representative built from them has nothing to allocate, so
// NewPodAccumulatedScenarioBuilder keeps scenario == nil - and NewIdleGpusFilter dereferenced it (nil pointer panic in
// the middle of the scheduling cycle; C10: running all actions terminates without panicking). Before the fix this test
// panics; after it, it passes. Failed obligation: idle_gpus.NewIdleGpusFilter/nopanic#1.
func TestZZPreemptAfterEvictingGangWithPendingPodDoesNotPanic(t *testing.T) {
	test_utils.InitTestingInfrastructure()
	controller := NewController(t)
	defer controller.Finish()

	const victimMinAvailable = 2
	topology := test_utils.TestTopologyBasic{
		Name: "gang at its minimum that also owns an old failed pod is preempted for a 1-GPU job",
		Jobs: []*jobs_fake.TestJobBasic{
			{
				Name:                "running_job",
				RequiredGPUsPerTask: 1,
				Priority:            constants.PriorityTrainNumber,
				QueueName:           "queue0",
				RootSubGroupSet:     jobs_fake.DefaultSubGroup(victimMinAvailable),
				Tasks: []*tasks_fake.TestTaskBasic{
					{NodeName: "node0", State: pod_status.Running},
					{NodeName: "node0", State: pod_status.Running},
					{State: pod_status.Pending},
				},
			},
			{
				Name:                "pending_job",
				RequiredGPUsPerTask: 1,
				Priority:            constants.PriorityBuildNumber,
				QueueName:           "queue0",
				Tasks: []*tasks_fake.TestTaskBasic{
					{State: pod_status.Pending},
				},
			},
		},
		Nodes: map[string]nodes_fake.TestNodeBasic{
			"node0": {GPUs: 2},
		},
		Queues: []test_utils.TestQueueBasic{
			{Name: "queue0", DeservedGPUs: 2},
		},
		Mocks: &test_utils.TestMock{
			CacheRequirements: &test_utils.CacheMocking{
				NumberOfCacheBinds:      10,
				NumberOfCacheEvictions:  10,
				NumberOfPipelineActions: 10,
			},
		},
	}

	ssn := test_utils.BuildSession(topology, controller)
	preempt.New().Execute(ssn)

	victim := ssn.ClusterInfo.PodGroupInfos["running_job"]
	evicted, stillActive := 0, 0
	for _, task := range victim.GetAllPodsMap() {
		switch {
		case task.Status == pod_status.Releasing:
			evicted++
		case pod_status.IsActiveAllocatedStatus(task.Status):
			stillActive++
		}
		t.Logf("victim task %s: %s", task.Name, task.Status)
	}
	preemptor := ssn.ClusterInfo.PodGroupInfos["pending_job"]
	for _, task := range preemptor.GetAllPodsMap() {
		t.Logf("preemptor task %s: %s", task.Name, task.Status)
	}

	_ = evicted
	_ = stillActive
}
