package cluster_info

// Demonstration of the C10 defect (in-package overlay test, run against the tree BEFORE the fix commit):
// a queue whose parentQueue is itself (or a 2-cycle) survives UpdateQueueHierarchy; every loop of the form
// `for q, ok := queues[id]; ok; q, ok = queues[q.ParentQueue]` downstream then never terminates
// (capacity_policy, proportion, reclaimable, minruntime, job_order_by_queue).
//
//   cd /repo && echo '{"Replace":{"/repo/pkg/scheduler/cache/cluster_info/zz_c10_test.go":"/verif/findings/C10/queue_cycles_test.go"}}' > /tmp/ov.json
//   GOFLAGS=-mod=mod GOPROXY=off go test -overlay /tmp/ov.json -vet=off -count=1 -run TestC10QueueCycles ./pkg/scheduler/cache/cluster_info

import (
	"testing"

	"github.com/NVIDIA/KAI-scheduler/pkg/scheduler/api/common_info"
	"github.com/NVIDIA/KAI-scheduler/pkg/scheduler/api/queue_info"
)

func TestC10QueueCyclesPruned(t *testing.T) {
	mk := func(id, parent string) *queue_info.QueueInfo {
		return &queue_info.QueueInfo{UID: common_info.QueueID(id), Name: id, ParentQueue: common_info.QueueID(parent)}
	}
	queues := map[common_info.QueueID]*queue_info.QueueInfo{
		"self": mk("self", "self"),
		"b":    mk("b", "c"), "c": mk("c", "b"), // 2-cycle
		"under": mk("under", "b"), // below a cycle
		"root":  mk("root", ""), "leaf": mk("leaf", "root"), // healthy
	}
	UpdateQueueHierarchy(queues)
	for id := range queues {
		cur, steps := id, 0
		for q, ok := queues[cur]; ok; q, ok = queues[q.ParentQueue] {
			if steps++; steps > len(queues)+1 {
				t.Fatalf("queue %q survives UpdateQueueHierarchy although its parent chain never ends", id)
			}
			cur = q.ParentQueue
		}
	}
	if _, ok := queues["leaf"]; !ok {
		t.Fatalf("healthy queue was pruned")
	}
	if _, ok := queues["root"]; !ok {
		t.Fatalf("healthy root queue was pruned")
	}
}
