package utils

import (
	"testing"

	"github.com/NVIDIA/KAI-scheduler/pkg/scheduler/api/common_info"
	"github.com/NVIDIA/KAI-scheduler/pkg/scheduler/api/pod_info"
	"github.com/NVIDIA/KAI-scheduler/pkg/scheduler/api/pod_status"
	"github.com/NVIDIA/KAI-scheduler/pkg/scheduler/api/podgroup_info"
	"github.com/NVIDIA/KAI-scheduler/pkg/scheduler/api/podgroup_info/subgroup_info"
	"github.com/NVIDIA/KAI-scheduler/pkg/scheduler/api/queue_info"
)

// Queue depth 0 for an action (conf QueueDepthPerAction: {preempt: 0}): the leaf node is linked into the
// tree although its job queue dropped the only job, so the order is "not empty" but yields no job.
func TestZZExecDepthZeroOrderNotEmptyButPopsNil(t *testing.T) {
	ssn := newPrioritySession(t)
	ssn.ClusterInfo.Queues = map[common_info.QueueID]*queue_info.QueueInfo{
		testQueue:       {UID: testQueue, ParentQueue: testParentQueue},
		testParentQueue: {UID: testParentQueue, ChildQueues: []common_info.QueueID{testQueue}},
	}
	ssn.ClusterInfo.PodGroupInfos = map[common_info.PodGroupID]*podgroup_info.PodGroupInfo{
		"0": {
			Name: "p150", Priority: 150, Queue: testQueue,
			PodStatusIndex: map[pod_status.PodStatus]pod_info.PodsMap{pod_status.Pending: {testPod: {}}},
			PodSets: map[string]*subgroup_info.PodSet{
				podgroup_info.DefaultSubGroup: subgroup_info.NewPodSet(podgroup_info.DefaultSubGroup, 0, nil).
					WithPodInfos(pod_info.PodsMap{testPod: {UID: testPod}}),
			},
		},
	}
	jobs := NewJobsOrderByQueues(ssn, JobsOrderInitOptions{FilterNonPending: true, FilterUnready: true, MaxJobsQueueDepth: 0})
	jobs.InitializeWithJobs(ssn.ClusterInfo.PodGroupInfos)
	if jobs.IsEmpty() {
		t.Skip("order is empty: nothing to show")
	}
	job := jobs.PopNextJob()
	if job == nil {
		t.Fatalf("IsEmpty() == false but PopNextJob() == nil: the action loops `for !IsEmpty() { job := PopNextJob(); ... job.Queue ...}` dereference nil (and would spin forever if they did not)")
	}
}
