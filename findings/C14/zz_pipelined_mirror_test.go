package node_info

import (
	"testing"

	. "go.uber.org/mock/gomock"
	v1 "k8s.io/api/core/v1"
	metav1 "k8s.io/apimachinery/pkg/apis/meta/v1"

	"github.com/NVIDIA/KAI-scheduler/pkg/scheduler/api/common_info"
	"github.com/NVIDIA/KAI-scheduler/pkg/scheduler/api/pod_affinity"
	"github.com/NVIDIA/KAI-scheduler/pkg/scheduler/api/pod_status"
)

// C13/C14: a what-if step and its undo must leave the node accounting exactly as it was.
// Node with 2 GPUs. GPU group "g": one 0.5 sharer R that is Releasing (so the whole device counts as releasing:
// Releasing.GPUs == 1). A pending 0.5 pod P is nominated (Pipelined) onto group g - the device is no longer
// "releasing capacity", Releasing.GPUs drops to 0 - and the nomination is then undone (RemoveTask(P)), as
// Statement.unpipeline / Rollback / Discard do. Ground truth after the undo: the node is back in the first state.
func TestFindingC14PipelineThenUnpipelineOnFullyReleasingSharedGpu(t *testing.T) {
	node := &v1.Node{
		ObjectMeta: metav1.ObjectMeta{Name: "node1"},
		Status: v1.NodeStatus{
			Capacity:    common_info.BuildResourceListWithGPU("8000m", "10G", "2"),
			Allocatable: common_info.BuildResourceListWithGPU("8000m", "10G", "2"),
		},
	}
	controller := NewController(t)
	aff := pod_affinity.NewMockNodePodAffinityInfo(controller)
	aff.EXPECT().AddPod(Any()).AnyTimes()
	aff.EXPECT().RemovePod(Any()).AnyTimes()
	ni := NewNodeInfo(node, aff, testVectorMapFromNode(node))

	r := createPod("ns", "r", podCreationOptions{GPUs: 0.5, gpuGroup: "g"})
	r.Status = pod_status.Releasing
	if err := ni.AddTask(r); err != nil {
		t.Fatal(err)
	}
	relBefore, idleBefore := ni.Releasing.GPUs(), ni.Idle.GPUs()
	relVecBefore := ni.ReleasingVector.Get(ni.VectorMap.GetIndex("nvidia.com/gpu"))
	if relBefore != 1 {
		t.Fatalf("setup: expected the shared device to count as one releasing GPU, got %v", relBefore)
	}

	p := createPod("ns", "p", podCreationOptions{GPUs: 0.5, gpuGroup: "g"})
	p.Status = pod_status.Pipelined
	if err := ni.AddTask(p); err != nil {
		t.Fatal(err)
	}
	if err := ni.RemoveTask(p); err != nil {
		t.Fatal(err)
	}

	if got := ni.Releasing.GPUs(); got != relBefore {
		t.Errorf("Releasing GPUs after pipeline + un-pipeline: got %v, want %v (as before the what-if step)", got, relBefore)
	}
	if got := ni.ReleasingVector.Get(ni.VectorMap.GetIndex("nvidia.com/gpu")); got != relVecBefore {
		t.Errorf("ReleasingVector[gpu] after pipeline + un-pipeline: got %v, want %v", got, relVecBefore)
	}
	if got := ni.Idle.GPUs(); got != idleBefore {
		t.Errorf("Idle GPUs after pipeline + un-pipeline: got %v, want %v", got, idleBefore)
	}
}
