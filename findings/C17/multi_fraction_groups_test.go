package resources

// Demonstration of the C17/C02 defect (in-package overlay test, run against the tree BEFORE the fix commit):
// the binder labels a multi-fraction pod only with runai-gpu-group/<group> labels (updatePodGPUGroup), never
// with the single runai-gpu-group label; GetGpuGroups returned nil for such a pod, so the pod-delete handler
// synced no group and the scheduler snapshot saw no GPU groups for it.
//
//   cd /repo && echo '{"Replace":{"/repo/pkg/common/resources/zz_c17_test.go":"/verif/findings/C17/multi_fraction_groups_test.go"}}' > /tmp/ov.json
//   GOFLAGS=-mod=mod GOPROXY=off go test -overlay /tmp/ov.json -vet=off -count=1 -run TestC17 ./pkg/common/resources

import (
	"sort"
	"testing"

	v1 "k8s.io/api/core/v1"
	metav1 "k8s.io/apimachinery/pkg/apis/meta/v1"
)

func TestC17MultiFractionGroupsReported(t *testing.T) {
	k1, v1l := GetMultiFractionGpuGroupLabel("g1")
	k2, v2l := GetMultiFractionGpuGroupLabel("g2")
	pod := &v1.Pod{ObjectMeta: metav1.ObjectMeta{Labels: map[string]string{k1: v1l, k2: v2l}}}
	got := GetGpuGroups(pod)
	sort.Strings(got)
	if len(got) != 2 || got[0] != "g1" || got[1] != "g2" {
		t.Fatalf("GetGpuGroups of a pod carrying only multi-fraction group labels = %v, want [g1 g2]", got)
	}
}
