package controllers

// Demonstration of the C12 defect (in-package overlay test, run against the tree BEFORE the fix commit):
// with BackoffLimit=3 the second failing reconcile increments FailedAttempts only in memory - the status
// patch is skipped because the phase is already Failed - so the stored counter stays 1 for ever and the
// request never becomes IsFailed() for the scheduler.
//
//   cd /repo && echo '{"Replace":{"/repo/pkg/binder/controllers/zz_c12_test.go":"/verif/findings/C12/status_patch_skipped_test.go"}}' > /tmp/ov.json
//   GOFLAGS=-mod=mod GOPROXY=off go test -overlay /tmp/ov.json -vet=off -count=1 -run TestC12AttemptsPersisted ./pkg/binder/controllers

import (
	"context"
	"errors"
	"testing"

	metav1 "k8s.io/apimachinery/pkg/apis/meta/v1"
	"k8s.io/apimachinery/pkg/runtime"
	"k8s.io/utils/ptr"
	ctrl "sigs.k8s.io/controller-runtime"
	"sigs.k8s.io/controller-runtime/pkg/client"
	"sigs.k8s.io/controller-runtime/pkg/client/fake"

	kubeaischedulerscheme "github.com/NVIDIA/KAI-scheduler/pkg/apis/client/clientset/versioned/scheme"
	schedulingv1alpha2 "github.com/NVIDIA/KAI-scheduler/pkg/apis/scheduling/v1alpha2"
)

func TestC12AttemptsPersisted(t *testing.T) {
	scheme := runtime.NewScheme()
	if err := kubeaischedulerscheme.AddToScheme(scheme); err != nil {
		t.Fatal(err)
	}
	br := &schedulingv1alpha2.BindRequest{
		ObjectMeta: metav1.ObjectMeta{Name: "br", Namespace: "default"},
		Spec:       schedulingv1alpha2.BindRequestSpec{PodName: "p", SelectedNode: "n", BackoffLimit: ptr.To(int32(3))},
	}
	c := fake.NewClientBuilder().WithScheme(scheme).WithStatusSubresource(&schedulingv1alpha2.BindRequest{}).WithObjects(br).Build()
	r := &BindRequestReconciler{Client: c}
	ctx := context.Background()
	for attempt := 1; attempt <= 3; attempt++ {
		cur := &schedulingv1alpha2.BindRequest{}
		if err := c.Get(ctx, client.ObjectKeyFromObject(br), cur); err != nil {
			t.Fatal(err)
		}
		_, _ = r.UpdateStatus(ctx, cur, ctrl.Result{}, errors.New("bind failed"))
		stored := &schedulingv1alpha2.BindRequest{}
		if err := c.Get(ctx, client.ObjectKeyFromObject(br), stored); err != nil {
			t.Fatal(err)
		}
		if int(stored.Status.FailedAttempts) != attempt {
			t.Fatalf("after failing reconcile %d the stored FailedAttempts is %d (phase %s)", attempt, stored.Status.FailedAttempts, stored.Status.Phase)
		}
	}
}
