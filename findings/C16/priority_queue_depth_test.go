// Demonstration for C16 (found by an independent reviewer while seeding, reproduced here):
// a bounded PriorityQueue (QueueDepthPerAction) must keep the BEST maxQueueSize items. Before the fix
// Push removed the item in the last heap slot, which is not the worst one in general, so a
// higher-priority job could be dropped from the allocate order while a lower-priority job of the same
// queue stayed in it (and was placed).
// Place in pkg/scheduler/scheduler_util/ (package scheduler_util) and run
//   go test -vet=off -count=1 -run TestZZBoundedQueueKeepsTheBest ./pkg/scheduler/scheduler_util/
package scheduler_util

import (
	"sort"
	"testing"
)

func TestZZBoundedQueueKeepsTheBest(t *testing.T) {
	less := func(l, r interface{}) bool { return l.(int) < r.(int) } // smaller number = popped first
	for _, tc := range [][]int{{1, 2, 5, 3}, {4, 9, 7, 8, 1, 6}, {10, 20, 30, 15, 25, 5}} {
		q := NewPriorityQueue(less, 3)
		for _, v := range tc {
			q.Push(v)
		}
		var got []int
		for !q.Empty() {
			got = append(got, q.Pop().(int))
		}
		want := append([]int{}, tc...)
		sort.Ints(want)
		want = want[:3]
		if len(got) != 3 || got[0] != want[0] || got[1] != want[1] || got[2] != want[2] {
			t.Errorf("pushed %v with depth 3: queue kept %v, the three best are %v", tc, got, want)
		}
	}
}
