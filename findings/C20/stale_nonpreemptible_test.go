package patcher

// Demonstration of the C20 defect (run as an in-package overlay test against the tree BEFORE the fix
// commit): a pod group that reported non-preemptible allocation and then became preemptible keeps the
// stale AllocatedNonPreemptible value in the status computed by getStatusWithMetadata.
//
//   cd /repo && echo '{"Replace":{"/repo/pkg/podgroupcontroller/controllers/patcher/zz_c20_test.go":"/verif/findings/C20/stale_nonpreemptible_test.go"}}' > /tmp/ov.json
//   GOFLAGS=-mod=mod GOPROXY=off go test -overlay /tmp/ov.json -vet=off -count=1 -run TestC20StaleNonPreemptible ./pkg/podgroupcontroller/controllers/patcher

import (
	"testing"

	v1 "k8s.io/api/core/v1"
	"k8s.io/apimachinery/pkg/api/resource"

	"github.com/NVIDIA/KAI-scheduler/pkg/apis/scheduling/v2alpha2"
	"github.com/NVIDIA/KAI-scheduler/pkg/podgroupcontroller/controllers/metadata"
)

func TestC20StaleNonPreemptible(t *testing.T) {
	old := v2alpha2.PodGroupStatus{ResourcesStatus: v2alpha2.PodGroupResourcesStatus{
		Allocated:               v1.ResourceList{"nvidia.com/gpu": resource.MustParse("1")},
		AllocatedNonPreemptible: v1.ResourceList{"nvidia.com/gpu": resource.MustParse("1")},
	}}
	md := &metadata.PodGroupMetadata{Preemptible: true,
		Requested: v1.ResourceList{"nvidia.com/gpu": resource.MustParse("1")},
		Allocated: v1.ResourceList{"nvidia.com/gpu": resource.MustParse("1")}}
	got := getStatusWithMetadata(md, old)
	if len(got.ResourcesStatus.AllocatedNonPreemptible) != 0 {
		t.Fatalf("preemptible pod group still reports AllocatedNonPreemptible=%v", got.ResourcesStatus.AllocatedNonPreemptible)
	}
}
