package pytorch

import (
	"testing"

	v1 "k8s.io/api/core/v1"
	metav1 "k8s.io/apimachinery/pkg/apis/meta/v1"
)

// C18 (the pod-grouper is a FUNCTION of the workload: it must return): the pod annotation
// kai.scheduler/segment-size: "0" (pod annotations are not schema-validated) was accepted by getSegmentSize
// - positivity was only checked for the job-template value - and buildWorkerSubGroups divided by it.
func TestFindingC18PytorchSegmentSizeZeroOnPod(t *testing.T) {
	pod := &v1.Pod{ObjectMeta: metav1.ObjectMeta{Name: "w-0", Namespace: "ns",
		Labels:      map[string]string{"training.kubeflow.org/replica-type": "worker", "training.kubeflow.org/replica-index": "0"},
		Annotations: map[string]string{"kai.scheduler/segment-size": "0"}}}
	replicaSpecs := map[string]interface{}{"Worker": map[string]interface{}{"replicas": int64(4)}}
	defer func() {
		if r := recover(); r != nil {
			t.Fatalf("pod-grouper panicked: %v", r)
		}
	}()
	if _, err := buildWorkerSubGroups(replicaSpecs, pod, 4, nil); err == nil {
		t.Fatalf("expected an error for a non-positive segment size")
	}
}
