package leader_worker_set

import (
	"testing"

	v1 "k8s.io/api/core/v1"
	metav1 "k8s.io/apimachinery/pkg/apis/meta/v1"
	"k8s.io/utils/ptr"
	lws "sigs.k8s.io/lws/api/leaderworkerset/v1"
)

// C18 (the pod-grouper is a FUNCTION of the workload: it must return) / C10-style totality: a pod whose
// worker-index label lies outside the group (LWS resized down while pods with a higher index still exist)
// made buildSubGroupsWithSegmentation index subGroups[podSegment] out of range and panic the pod-grouper.
func TestFindingC18LwsWorkerIndexOutsideGroup(t *testing.T) {
	pod := &v1.Pod{ObjectMeta: metav1.ObjectMeta{Name: "w-9", Namespace: "ns",
		Labels: map[string]string{"leaderworkerset.sigs.k8s.io/worker-index": "9"}}}
	policy := &lws.SubGroupPolicy{SubGroupSize: ptr.To(int32(2)), Type: ptr.To(lws.SubGroupPolicyTypeLeaderWorker)}
	defer func() {
		if r := recover(); r != nil {
			t.Fatalf("pod-grouper panicked: %v", r)
		}
	}()
	if _, err := buildSubGroupsWithSegmentation(policy, nil, 4, pod); err == nil {
		t.Fatalf("expected an error for a worker index outside of the group")
	}
}
