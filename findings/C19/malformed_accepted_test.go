package gpurequesthandler

// Demonstration of the C19 defects (in-package overlay test, run against the tree BEFORE the fix commit):
// admission accepts gpu-fraction "NaN" (NaN <= 0 and NaN >= 1 are both false) and accepts gpu-memory /
// gpu-fraction-num-devices values above MaxInt64 (ParseUint) that the scheduler (ParseInt) cannot read.
//
//   cd /repo && echo '{"Replace":{"/repo/pkg/binder/plugins/gpusharing/gpu-request/zz_c19_test.go":"/verif/findings/C19/malformed_accepted_test.go"}}' > /tmp/ov.json
//   GOFLAGS=-mod=mod GOPROXY=off go test -overlay /tmp/ov.json -vet=off -count=1 -run TestC19 ./pkg/binder/plugins/gpusharing/gpu-request

import (
	"testing"

	v1 "k8s.io/api/core/v1"
	metav1 "k8s.io/apimachinery/pkg/apis/meta/v1"

	"github.com/NVIDIA/KAI-scheduler/pkg/common/constants"
)

func podWith(ann map[string]string) *v1.Pod {
	return &v1.Pod{ObjectMeta: metav1.ObjectMeta{Annotations: ann}, Spec: v1.PodSpec{Containers: []v1.Container{{Name: "c"}}}}
}

func TestC19MalformedGpuRequestsRejected(t *testing.T) {
	for name, ann := range map[string]map[string]string{
		"NaN fraction":          {constants.GpuFraction: "NaN"},
		"memory above MaxInt64": {constants.GpuMemory: "18446744073709551615"},
		"count above MaxInt64":  {constants.GpuFraction: "0.5", constants.GpuFractionsNumDevices: "9223372036854775808"},
	} {
		if err := ValidateGpuRequests(podWith(ann)); err == nil {
			t.Errorf("%s: accepted by ValidateGpuRequests", name)
		}
	}
}
