package gpu_sharing_test

import (
	"testing"

	. "go.uber.org/mock/gomock"

	commonconstants "github.com/NVIDIA/KAI-scheduler/pkg/common/constants"
	"github.com/NVIDIA/KAI-scheduler/pkg/scheduler/actions/allocate"
	"github.com/NVIDIA/KAI-scheduler/pkg/scheduler/api/pod_info"
	"github.com/NVIDIA/KAI-scheduler/pkg/scheduler/api/pod_status"
	"github.com/NVIDIA/KAI-scheduler/pkg/scheduler/cache"
	"github.com/NVIDIA/KAI-scheduler/pkg/scheduler/conf"
	"github.com/NVIDIA/KAI-scheduler/pkg/scheduler/constants"
	"github.com/NVIDIA/KAI-scheduler/pkg/scheduler/test_utils"
	"github.com/NVIDIA/KAI-scheduler/pkg/scheduler/test_utils/jobs_fake"
	"github.com/NVIDIA/KAI-scheduler/pkg/scheduler/test_utils/nodes_fake"
	"github.com/NVIDIA/KAI-scheduler/pkg/scheduler/test_utils/tasks_fake"
)

// node0: 3 GPUs. GPU a: whole-GPU pod TERMINATING (Releasing.gpus = 1). GPU b: shared group "0" with a running 0.5 pod.
// GPU c: idle (Idle.gpus = 1). Pending pod: 2 devices x 0.5, gpuspread order -> fitting list ["-2","-2","0"].
// IsTaskAllocatable counts floor(Idle.gpus)=1 + fitting groups=1 >= 2, so BOTH whole-GPU markers open a new group with
// IsReleasing=false: the pod is bound on two new devices while only one whole GPU is idle.
func TestFix02NewGroupsVsIdleGpus(t *testing.T) {
	test_utils.InitTestingInfrastructure()
	controller := NewController(t)
	defer controller.Finish()

	topology := test_utils.TestTopologyBasic{
		Name: "two new groups, one idle whole GPU",
		Jobs: []*jobs_fake.TestJobBasic{
			{
				Name: "releasing_whole", RequiredGPUsPerTask: 1, Priority: constants.PriorityTrainNumber, QueueName: "queue0",
				Tasks: []*tasks_fake.TestTaskBasic{{State: pod_status.Releasing, NodeName: "node0"}},
			},
			{
				Name: "running_frac", RequiredGPUsPerTask: 0.5, Priority: constants.PriorityTrainNumber, QueueName: "queue0",
				Tasks: []*tasks_fake.TestTaskBasic{{State: pod_status.Running, NodeName: "node0", GPUGroups: []string{"0"}}},
			},
			{
				Name: "pending_job0", RequiredGPUsPerTask: 0.5, Priority: constants.PriorityTrainNumber, QueueName: "queue0",
				Tasks: []*tasks_fake.TestTaskBasic{{State: pod_status.Pending}},
			},
		},
		Nodes:  map[string]nodes_fake.TestNodeBasic{"node0": {GPUs: 3}},
		Queues: []test_utils.TestQueueBasic{{Name: "queue0", DeservedGPUs: 4, GPUOverQuotaWeight: 1}},
		Mocks: &test_utils.TestMock{
			CacheRequirements: &test_utils.CacheMocking{NumberOfPipelineActions: 10},
			SchedulerConf: &conf.SchedulerConfiguration{
				Actions: "allocate",
				Tiers: []conf.Tier{{Plugins: []conf.PluginOption{
					{Name: "nodeplacement", Arguments: map[string]string{
						constants.GPUResource: constants.SpreadStrategy, constants.CPUResource: constants.SpreadStrategy}},
					{Name: "gpuspread"}, {Name: "proportion"}, {Name: "priority"}, {Name: "nodeavailability"}, {Name: "resourcetype"},
				}}},
			},
		},
	}
	ssn := test_utils.BuildSession(topology, controller)

	type bindCall struct {
		pod, node string
		groups    []string
	}
	var binds []bindCall
	ssn.Cache.(*cache.MockCache).EXPECT().Bind(Any(), Any(), Any()).DoAndReturn(
		func(p *pod_info.PodInfo, hostname string, _ map[string]string) error {
			binds = append(binds, bindCall{pod: p.Name, node: hostname, groups: append([]string{}, p.GPUGroups...)})
			return nil
		}).AnyTimes()

	var pending *pod_info.PodInfo
	for _, task := range ssn.ClusterInfo.PodGroupInfos["pending_job0"].GetAllPodsMap() {
		pending = task
	}
	pending.Pod.Annotations[commonconstants.GpuFractionsNumDevices] = "2"
	rebuilt := pod_info.NewTaskInfo(pending.Pod, nil, pending.VectorMap)
	pending.ResReq = rebuilt.ResReq
	pending.ResReqVector = rebuilt.ResReqVector
	if pending.ResReq.GetNumOfGpuDevices() != 2 {
		t.Fatalf("setup: expected a 2-device request")
	}

	node := ssn.ClusterInfo.Nodes["node0"]
	t.Logf("before: Idle.gpus=%v Releasing.gpus=%v used groups=%v fitting=%v",
		node.Idle.GPUs(), node.Releasing.GPUs(), node.UsedSharedGPUsMemory, ssn.FittingGPUs(node, pending))
	if node.Idle.GPUs() != 1 || node.Releasing.GPUs() != 1 {
		t.Fatalf("setup: want Idle.gpus=1 Releasing.gpus=1")
	}
	idleBefore := node.Idle.GPUs()

	allocate.New().Execute(ssn)

	t.Logf("after: pending status=%v node=%q groups=%v binds=%v Idle.gpus=%v Releasing.gpus=%v",
		pending.Status, pending.NodeName, pending.GPUGroups, binds, node.Idle.GPUs(), node.Releasing.GPUs())

	newGroups := 0
	for _, b := range binds {
		for _, g := range b.groups {
			if g != "0" {
				newGroups++
			}
		}
	}
	if float64(newGroups) > idleBefore {
		t.Errorf("pod BOUND on %d newly opened GPU groups while only %v whole GPU was idle (the other is still held by a terminating whole-GPU pod)", newGroups, idleBefore)
	}
	if node.Idle.GPUs() < 0 {
		t.Errorf("node Idle.gpus went negative: %v", node.Idle.GPUs())
	}
}
