package resource_division

import (
	"fmt"
	"math/rand"
	"testing"
	"time"

	metav1 "k8s.io/apimachinery/pkg/apis/meta/v1"

	commonconstants "github.com/NVIDIA/KAI-scheduler/pkg/common/constants"
	"github.com/NVIDIA/KAI-scheduler/pkg/scheduler/api/common_info"
	rs "github.com/NVIDIA/KAI-scheduler/pkg/scheduler/plugins/proportion/resource_share"
)

type zzQ struct {
	prio                     int
	weight, request, quota   float64
}

func zzBuild(qs []zzQ) map[common_info.QueueID]*rs.QueueAttributes {
	base := time.Date(2025, 1, 1, 0, 0, 0, 0, time.UTC)
	m := map[common_info.QueueID]*rs.QueueAttributes{}
	for i, q := range qs {
		id := fmt.Sprintf("q%d", i)
		m[common_info.QueueID(id)] = &rs.QueueAttributes{
			UID: common_info.QueueID(id), Name: id, Priority: q.prio,
			CreationTimestamp: metav1.NewTime(base.Add(time.Duration(i) * time.Hour)),
			QueueResourceShare: rs.QueueResourceShare{
				GPU:    rs.ResourceShare{Deserved: q.quota, OverQuotaWeight: q.weight, MaxAllowed: commonconstants.UnlimitedResourceQuantity, Request: q.request},
				CPU:    rs.EmptyResource(),
				Memory: rs.EmptyResource(),
			},
		}
	}
	return m
}

func zzRun(total float64, qs []zzQ) string {
	m := zzBuild(qs)
	SetResourcesShare(rs.ResourceQuantities{rs.GpuResource: total, rs.CpuResource: 0, rs.MemoryResource: 0}, 0, m)
	s := ""
	for i := range qs {
		s += fmt.Sprintf("%v ", m[common_info.QueueID(fmt.Sprintf("q%d", i))].GPU.FairShare)
	}
	return s
}

// C09 "... and the result is independent of the order in which queues are enumerated": the same sibling set must
// get the same fair shares on every run (Go randomises map iteration). Search small random sibling sets.
func TestFindingC09FairShareIndependentOfEnumerationOrder(t *testing.T) {
	rng := rand.New(rand.NewSource(1))
	found := 0
	for iter := 0; iter < 4000 && found < 3; iter++ {
		n := 2 + rng.Intn(4)
		qs := make([]zzQ, n)
		for i := range qs {
			qs[i] = zzQ{prio: rng.Intn(2), weight: float64(rng.Intn(4)), request: float64(rng.Intn(24)) / 2, quota: float64(rng.Intn(3))}
		}
		total := float64(4 + rng.Intn(24))
		seen := map[string]int{}
		for rep := 0; rep < 40; rep++ {
			seen[zzRun(total, qs)]++
		}
		if len(seen) > 1 {
			found++
			t.Errorf("order-dependent division: total=%v queues(prio,weight,request,quota)=%v results=%v", total, qs, seen)
		}
	}
}
