#!/bin/bash
# Offline setup: build govc and warm the Go build cache (export data) for /repo.
set -e
cd "$(dirname "$0")"
export GOFLAGS=-mod=mod GOPROXY=off
mkdir -p bin
(cd govc && GOTOOLCHAIN=local go1.26.8 build -o ../bin/govc .)
(cd /repo && go build ./pkg/scheduler/... ./pkg/binder/... ./pkg/podgrouper/... ./pkg/admission/... ./pkg/common/... ./pkg/podgroupcontroller/... ./pkg/queuecontroller/... ./pkg/apis/... ) || true
